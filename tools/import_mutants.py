#!/usr/bin/env python3
"""Confirm sub-agent mutants in a scratch worktree and store them under /verif/seeded/.
usage: import_mutants.py PROP /tmp/wt-PROP/_mut"""
import json, os, shutil, subprocess, sys
prop, src = sys.argv[1], sys.argv[2]
WT = "/tmp/wt-verify"
env = dict(os.environ, GOFLAGS="-mod=mod", GOPROXY="off")
env.pop("GOTOOLCHAIN", None); env.pop("GOSUMDB", None)
def sh(cmd, cwd=None):
    return subprocess.run(cmd, shell=True, text=True, capture_output=True, cwd=cwd, env=env)
if not os.path.isdir(WT):
    r = sh("git -C /repo worktree add --detach %s HEAD" % WT); assert r.returncode == 0, r.stderr
sh("git checkout -q --detach $(git -C /repo rev-parse HEAD) && git checkout -- . && git clean -fdq", cwd=WT)
for n in range(1, 21):
    patch = os.path.join(src, "patch%d.diff" % n); demo = os.path.join(src, "demo%d_test.go" % n)
    if not (os.path.exists(patch) and os.path.exists(demo)):
        continue
    mid = "%s-m%d" % (prop, n)
    sh("git checkout -- . && git clean -fdq", cwd=WT)
    shutil.copy(demo, os.path.join(WT, "demo%d_test.go" % n))
    clean = sh("timeout 300 go test -vet=off -count=1 -run TestMutant%d ." % n, cwd=WT)
    ap = sh("git apply %s" % patch, cwd=WT)
    suite = sh("timeout 600 go test -vet=off -count=1 ./... 2>&1 | grep -v TestMutant", cwd=WT)
    os.remove(os.path.join(WT, "demo%d_test.go" % n))
    suite2 = sh("timeout 600 go test -vet=off -count=1 ./...", cwd=WT)
    shutil.copy(demo, os.path.join(WT, "demo%d_test.go" % n))
    mut = sh("timeout 300 go test -vet=off -count=1 -run TestMutant%d ." % n, cwd=WT)
    ok = clean.returncode == 0 and ap.returncode == 0 and suite2.returncode == 0 and mut.returncode != 0
    print(mid, "clean-demo-pass=%s apply=%s suite-pass=%s demo-fails-with-change=%s => %s" % (clean.returncode == 0, ap.returncode == 0, suite2.returncode == 0, mut.returncode != 0, "CONFIRMED" if ok else "REJECTED"))
    if not ok:
        print(clean.stdout[-300:], ap.stderr[-300:], suite2.stdout[-300:], mut.stdout[-300:])
        continue
    d = os.path.join("/verif/seeded", mid); os.makedirs(d, exist_ok=True)
    shutil.copy(patch, os.path.join(d, "patch.diff")); shutil.copy(demo, os.path.join(d, "demo_test.go"))
    notes = ""
    try: notes = open(os.path.join(src, "notes%d.md" % n)).read()
    except Exception: pass
    json.dump({"id": mid, "property": prop, "needs": notes.strip(), "confirmed": {
        "base_commit": sh("git -C /repo rev-parse --short HEAD").stdout.strip(),
        "ran": ["go test -vet=off -count=1 -run TestMutant%d . on the unchanged tree: pass" % n,
                "git apply patch.diff; go test -vet=off -count=1 ./... : pass (existing suite)",
                "go test -vet=off -count=1 -run TestMutant%d . with the change: FAIL" % n]},
        "source": "independent sub-agent given only the property text and a scratch worktree"}, open(os.path.join(d, "meta.json"), "w"), indent=1)
sh("git checkout -- . && git clean -fdq", cwd=WT)
