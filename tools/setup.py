#!/usr/bin/env python3
"""Build everything from files on disk: gotrans, harness, Gen/Generated.v and the whole Coq development (full .vo)."""
import os, sys
sys.path.insert(0, os.path.dirname(os.path.abspath(__file__)))
import check

def main():
    os.makedirs(check.BUILD, exist_ok=True)
    with check.Lock("build"):
        ok, msg = check.build_tools(race=True)
        print("tools:", "ok" if ok else msg)
        if not ok:
            sys.exit(1)
        ok, msg = check.regenerate()
        print(msg)
        if not ok:
            sys.exit(1)
        rc, out = check.run(["coq_makefile", "-f", "_CoqProject", "-o", "Makefile"], cwd=check.COQ)
        rc, out = check.run(["make", "-j16", "COQC=timeout 1500 coqc"], cwd=check.COQ, timeout=3400)
        print(out[-3000:])
        if rc != 0:
            sys.exit(1)
    hits = check.forbidden_scan()
    if hits:
        print("forbidden:", hits)
        sys.exit(1)
    print("setup ok")

if __name__ == "__main__":
    main()
