#!/usr/bin/env python3
"""Apply each seeded change under /verif/seeded/<id>/patch.diff to /repo, run the quick check of the
property it breaks (and, with --all, every property), undo it, and record which checks raise an alarm.
usage: selftest_mutants.py [--all] [--no-corpus] [ids...]"""
import json, os, subprocess, sys, time
VERIF = os.path.dirname(os.path.dirname(os.path.abspath(__file__)))
SEEDED = os.path.join(VERIF, "seeded")

def sh(cmd, **kw):
    return subprocess.run(cmd, shell=True, text=True, capture_output=True, **kw)

def main():
    args = [a for a in sys.argv[1:] if not a.startswith("--")]
    allprops = "--all" in sys.argv
    ids = args or sorted(d for d in os.listdir(SEEDED) if os.path.isdir(os.path.join(SEEDED, d)))
    assert sh("git -C /repo status --porcelain").stdout.strip() == "", "/repo is not clean"
    nocorpus = "--no-corpus" in sys.argv   # generators and proofs alone, without the regression corpus
    respath = os.path.join(VERIF, "seeded", "results_no_corpus.json" if nocorpus else "results.json")
    try:
        results = json.load(open(respath))
    except Exception:
        results = {}
    for mid in ids:
        d = os.path.join(SEEDED, mid)
        meta = json.load(open(os.path.join(d, "meta.json")))
        props = [meta["property"]] + [p for p in meta.get("also_check", [])]
        if allprops:
            props = ["C%02d" % i for i in range(1, 21)]
        r = sh("git -C /repo apply %s" % os.path.join(d, "patch.diff"))
        if r.returncode != 0:
            print(mid, "patch does not apply:", r.stderr[:300]); continue
        try:
            caught = {}
            for p in props:
                t0 = time.time()
                c = sh("cd %s && %stimeout 1500 python3 tools/check.py --property %s --tier quick" % (VERIF, "VERIF_NO_CORPUS=1 " if nocorpus else "", p))
                viol = [l for l in c.stdout.splitlines() if l.startswith("VIOLATION")]
                fail = [l for l in c.stdout.splitlines() if l.startswith("failing input") or l.startswith("no longer")]
                caught[p] = {"alarm": bool(viol), "exit": c.returncode, "line": (viol or [""])[0], "detail": (fail or [""])[0][:400], "s": round(time.time() - t0)}
                print(mid, p, "ALARM" if viol else "silent", caught[p]["detail"][:160])
            results[mid] = caught
            json.dump(results, open(respath, "w"), indent=1)
        finally:
            sh("git -C /repo checkout -- . && git -C /repo clean -fdq")
    json.dump(results, open(respath, "w"), indent=1)
    # the runs above rewrote evidence/<id>.json from mutated trees: evidence must come from the unchanged tree
    touched = sorted({p for mid in ids if mid in results for p in results[mid]})
    for p in touched:
        c = sh("cd %s && timeout 3000 python3 tools/check.py --property %s --tier quick" % (VERIF, p))
        print("restored evidence", p, "exit", c.returncode)

if __name__ == "__main__":
    main()
