#!/usr/bin/env python3
"""Regenerate the table of seeded changes in DESIGN.md (section 12) from seeded/*/meta.json and
seeded/results_no_corpus.json."""
import json, os, re, sys
V = os.path.dirname(os.path.dirname(os.path.abspath(__file__)))
res = json.load(open(os.path.join(V, "seeded", "results_no_corpus.json")))
rows = []
def key(n):
    m = re.match(r"C(\d+)-m(\d+)", n)
    return (int(m.group(1)), int(m.group(2)))
for name in sorted([d for d in os.listdir(os.path.join(V, "seeded")) if re.match(r"C\d+-m\d+$", d)], key=key):
    meta = json.load(open(os.path.join(V, "seeded", name, "meta.json")))
    first = meta.get("needs", "").strip().splitlines()[0].lstrip("# ").strip()
    first = re.sub(r"^(Mutant|Change|Notes?)\s*\d+\s*[-–—:(]*\s*", "", first, flags=re.I).strip(" -–—:")
    first = first.replace("|", "\\|")
    prop = name.split("-")[0]
    r = (res.get(name) or {}).get(prop) or {}
    how = "NOT CAUGHT"
    if r.get("alarm"):
        d = r.get("detail", "")
        if d.startswith("no longer checks"):
            how = "proof obligation / tie lemma (" + d.split(":", 1)[1].strip() + "), no failing input found"
        else:
            m = re.search(r"reason=([^:]{1,60}?)(:| \(|$)", d)
            how = (m.group(1) if m else d[:60]).strip()
    rows.append("| %s | %s | %s |" % (name, first[:150], how[:90].replace("|", "\\|")))
table = "| change | what it does | caught by (quick check of its property, regression corpus disabled) |\n|---|---|---|\n" + "\n".join(rows) + "\n"
p = os.path.join(V, "DESIGN.md")
s = open(p).read()
i = s.index("| change | what it does | caught by")
j = i
lines = s[i:].splitlines(keepends=True)
n = 0
for ln in lines:
    if ln.startswith("|"):
        n += len(ln)
    else:
        break
s = s[:i] + table + s[i + n:]
open(p, "w").write(s)
caught = sum(1 for r in rows if "NOT CAUGHT" not in r)
print("rows", len(rows), "caught", caught)
