#!/usr/bin/env python3
"""Decide one property: proofs + tie to the source + correspondence + property checker.

usage: check.py --property C12 [--tier quick|thorough] [--replay FILE]
env:   VERIF_SEED, VERIF_TIER, VERIF_REPO (default /repo)
exit 0: property held on everything explored; exit 1 + "VIOLATION property=<id> replay=<path>" otherwise.
"""
import argparse, fcntl, hashlib, json, os, re, shutil, subprocess, sys, time

VERIF = os.path.dirname(os.path.dirname(os.path.abspath(__file__)))
COQ = os.path.join(VERIF, "coq")
BUILD = os.path.join(VERIF, "_build")
REPO = os.environ.get("VERIF_REPO", "/repo")

CODES = {1: "model and implementation differ", 2: "unmodelled", 3: "model out of fuel",
         4: "observed outcome violates the property checker", 5: "observed outcome violates the property checker (relation between calls)",
         6: "the harness renders the reference expression differently from Spec/Unparse.v",
         7: "reference semantics (specification) and implementation differ"}

sys.path.insert(0, os.path.join(VERIF, "tools"))
from props import PROPS  # per-property configuration


def goenv():
    env = dict(os.environ)
    env["GOFLAGS"] = "-mod=mod"
    env["GOPROXY"] = "off"
    env.pop("GOSUMDB", None)
    env.pop("GOTOOLCHAIN", None)
    env.pop("GONOSUMDB", None)
    env["GOCACHE"] = os.path.join(BUILD, "gocache")
    return env


def run(cmd, cwd=None, timeout=1200, env=None, capture=True):
    try:
        p = subprocess.run(cmd, cwd=cwd, timeout=timeout, env=env, stdout=subprocess.PIPE if capture else None,
                           stderr=subprocess.STDOUT if capture else None, text=True)
        return p.returncode, p.stdout or ""
    except subprocess.TimeoutExpired as e:
        out = e.stdout if isinstance(e.stdout, str) else (e.stdout or b"").decode("utf8", "replace")
        return 124, out + "\n[timeout after %ss]" % timeout


def run_guarded(cmd, cwd=None, timeout=1200, env=None, rss_limit_kb=12 * 1024 * 1024):
    """Like run, but the process is killed when its resident memory passes the limit (a change to the
    code under test that allocates by magnitude must not take the machine down with it)."""
    import threading
    p = subprocess.Popen(cmd, cwd=cwd, env=env, stdout=subprocess.PIPE, stderr=subprocess.STDOUT, text=True)
    state = {"killed": None}

    def watch():
        t0 = time.time()
        while p.poll() is None:
            try:
                for line in open("/proc/%d/status" % p.pid):
                    if line.startswith("VmRSS:") and int(line.split()[1]) > rss_limit_kb:
                        state["killed"] = "resident memory above %d MiB" % (rss_limit_kb // 1024)
                        p.kill()
            except Exception:
                pass
            if time.time() - t0 > timeout:
                state["killed"] = "timeout after %ss" % timeout
                p.kill()
            time.sleep(0.2)

    th = threading.Thread(target=watch, daemon=True)
    th.start()
    out, _ = p.communicate()
    th.join(timeout=2)
    if state["killed"]:
        return 124, (out or "") + "\n[killed: %s]" % state["killed"]
    return p.returncode, out or ""


class Lock:
    def __init__(self, name):
        os.makedirs(BUILD, exist_ok=True)
        self.path = os.path.join(BUILD, name + ".lock")

    def __enter__(self):
        self.f = open(self.path, "w")
        fcntl.flock(self.f, fcntl.LOCK_EX)

    def __exit__(self, *a):
        fcntl.flock(self.f, fcntl.LOCK_UN)
        self.f.close()


def write_if_changed(path, content):
    try:
        if open(path).read() == content:
            return False
    except FileNotFoundError:
        pass
    with open(path, "w") as f:
        f.write(content)
    return True


def build_tools(race=False):
    """gotrans and the harness, built against the current working tree of REPO."""
    env = goenv()
    notes = []
    # gotrans (stdlib only)
    gt = os.path.join(VERIF, "tools", "gotrans")
    rc, out = run(["go", "build", "-o", os.path.join(BUILD, "gotrans"), "."], cwd=gt, env=env, timeout=600)
    if rc != 0:
        return False, "gotrans build failed:\n" + out
    # harness: module with a replace directive pointing at REPO
    hsrc = os.path.join(VERIF, "harness")
    hdir = os.path.join(BUILD, "harness_src")
    os.makedirs(hdir, exist_ok=True)
    for f in os.listdir(hsrc):
        if f.endswith(".go") or f.endswith(".json"):
            write_if_changed(os.path.join(hdir, f), open(os.path.join(hsrc, f)).read())
    for f in os.listdir(hdir):
        if f.endswith(".go") and not os.path.exists(os.path.join(hsrc, f)):
            os.remove(os.path.join(hdir, f))
    tmpl = open(os.path.join(hsrc, "go.mod.tmpl")).read().replace("REPO_PATH", REPO)
    write_if_changed(os.path.join(hdir, "go.mod"), tmpl)
    shutil.copy(os.path.join(REPO, "go.sum"), os.path.join(hdir, "go.sum"))
    rc, out = run(["go", "build", "-tags", "verif", "-o", os.path.join(BUILD, "harness"), "."], cwd=hdir, env=env, timeout=900)
    if rc != 0:
        return False, "harness build against %s failed (the tree may not compile):\n%s" % (REPO, out)
    if race:
        rc, out = run(["go", "build", "-race", "-tags", "verif", "-o", os.path.join(BUILD, "harness_race"), "."], cwd=hdir, env=env, timeout=900)
        if rc != 0:
            return False, "race-detector build of the harness failed:\n" + out
    return True, "\n".join(notes)


def regenerate():
    """Gen/Generated.v from the current sources."""
    rc, out = run([os.path.join(BUILD, "gotrans"), "-repo", REPO], timeout=120)
    if rc != 0:
        return False, "gotrans failed:\n" + out
    changed = write_if_changed(os.path.join(COQ, "Gen", "Generated.v"), out)
    # the case mappings of the unicode package of the toolchain that builds the library (printed by the harness binary)
    note = ""
    if os.path.exists(os.path.join(BUILD, "harness")):
        rc2, out2 = run([os.path.join(BUILD, "harness"), "-casetable"], timeout=120)
        if rc2 != 0 or "case_upper_table" not in out2:
            return False, "harness -casetable failed:\n" + out2[-2000:]
        note = ", CaseTable.v %s" % ("rewritten" if write_if_changed(os.path.join(COQ, "Gen", "CaseTable.v"), out2) else "unchanged")
    return True, "Generated.v %s%s" % ("rewritten" if changed else "unchanged", note)


def coq_make(targets, timeout=3000):
    if not os.path.exists(os.path.join(COQ, "Makefile")):
        rc, out = run(["coq_makefile", "-f", "_CoqProject", "-o", "Makefile"], cwd=COQ)
        if rc != 0:
            return rc, out
    return run(["make", "-j16", "-k", "COQC=timeout 1500 coqc"] + targets, cwd=COQ, timeout=timeout)


FORBIDDEN = re.compile(r"\b(Admitted|admit|Axiom|Axioms|Parameter|Parameters|Conjecture|Conjectures|Unset Guard Checking|bypass_check|Admit Obligations|native_compute)\b|-type-in-type|-impredicative-set")


def forbidden_scan():
    hits = []
    proj = open(os.path.join(COQ, "_CoqProject")).read()
    # every file of the development (what _CoqProject builds); files not listed there are not
    # compiled, cannot be imported by a listed file without failing the build, and are not evidence
    for f in re.findall(r"^\s*(\S+\.v)\s*$", proj, flags=re.M):
        p = os.path.join(COQ, f)
        txt = open(p).read()
        txt = re.sub(r"\(\*.*?\*\)", "", txt, flags=re.S)
        for m in FORBIDDEN.finditer(txt):
            hits.append("%s: %s" % (os.path.relpath(p, COQ), m.group(0)))
    for m in FORBIDDEN.finditer(proj):
        hits.append("_CoqProject: " + m.group(0))
    return hits


def property_obligations(prop):
    """Theorem names in Properties/<prop>.v, whether it compiles, and Print Assumptions output."""
    path = os.path.join(COQ, "Properties", prop + ".v")
    txt = open(path).read()
    names = re.findall(r"^(?:Theorem|Lemma|Corollary|Example)\s+([A-Za-z0-9_']+)", txt, flags=re.M)
    rc, out = run(["coqc", "-Q", ".", "JM", "Properties/%s.v" % prop], cwd=COQ, timeout=1200)
    assumptions = {}
    # "Print Assumptions x." prints either "Closed under the global context" or "Axioms:\n..."
    blocks = re.split(r"\n(?=Closed under the global context|Axioms:)", "\n" + out)
    prints = re.findall(r"^Print Assumptions\s+([A-Za-z0-9_'.]+)\.", txt, flags=re.M)
    bl = [b.strip() for b in blocks if b.strip().startswith(("Closed under", "Axioms:"))]
    for i, n in enumerate(prints):
        assumptions[n] = bl[i] if i < len(bl) else "?"
    return names, rc == 0, out, assumptions


def parse_shard_output(txt):
    """'bad = [1; 4; 7; 1]' -> [(1,4),(7,1)]; None if the shard did not evaluate."""
    m = re.search(r"bad\s*=\s*\[(.*?)\]\s*:\s*list Z", txt, flags=re.S)
    if not m:
        return None
    nums = [int(x.replace("(", "").replace(")", "")) for x in re.findall(r"\(?-?\d+\)?", m.group(1))]
    return list(zip(nums[0::2], nums[1::2]))


def load_known():
    p = os.path.join(VERIF, "known_findings.json")
    try:
        return json.load(open(p))
    except FileNotFoundError:
        return {"findings": []}


def known_match(known, prop, info):
    for k in known.get("findings", []):
        if k.get("status") != "known" or k.get("property") != prop:
            continue
        m = k.get("match", {})
        ok = True
        if "expr" in m and info.get("expr") != m["expr"]:
            ok = False
        if "expr_regex" in m and not re.search(m["expr_regex"], info.get("expr", "") or ""):
            ok = False
        if "doc" in m and info.get("doc") != m["doc"]:
            ok = False
        if "site" in m and info.get("site") != m["site"]:
            ok = False
        if ok:
            return k
    return None


def main():
    ap = argparse.ArgumentParser()
    ap.add_argument("--property", required=True)
    ap.add_argument("--tier", default=os.environ.get("VERIF_TIER", "quick"))
    ap.add_argument("--replay")
    args = ap.parse_args()
    prop = args.property
    tier = args.tier if args.tier in ("quick", "thorough") else "quick"
    seed = int(os.environ.get("VERIF_SEED", "20260930") or "20260930")
    recorded = None
    if args.replay:
        # a replay file records seed and tier: every random choice derives from the seed, so the same
        # inputs are generated again and judged against /repo's current tree
        try:
            recorded = json.load(open(args.replay))
            seed = int(recorded.get("seed", seed))
            if recorded.get("tier") in ("quick", "thorough"):
                tier = recorded["tier"]
        except Exception as e:
            print("cannot read replay file %s: %s" % (args.replay, e))
            recorded = None
    cfg = PROPS[prop]
    t0 = time.time()
    os.makedirs(BUILD, exist_ok=True)
    os.makedirs(os.path.join(VERIF, "evidence"), exist_ok=True)
    os.makedirs(os.path.join(VERIF, "replays"), exist_ok=True)
    work = os.path.join(BUILD, "run_%s_%s" % (prop, tier))
    shutil.rmtree(work, ignore_errors=True)
    os.makedirs(work)

    broken = []      # proof obligations / tie lemmas / builds that no longer check
    violations = []  # concrete failing inputs
    known_lines = []
    notes = []

    # 1. tools + translator + proofs (shared build directory: one at a time)
    with Lock("build"):
        ok, msg = build_tools(race=bool(cfg.get("race")))
        if not ok:
            broken.append({"what": "build", "detail": msg[-3000:]})
        else:
            ok2, msg2 = regenerate()
            notes.append(msg2)
            if not ok2:
                broken.append({"what": "translator", "detail": msg2[-3000:]})
        checker = cfg.get("checker")
        targets = ["Properties/%s.vo" % prop, "Model/Tie.vo"] + (["Checks/%s.vo" % checker] if checker else [])
        rc, out = coq_make(targets)
        make_ok = rc == 0
        if not make_ok:
            failed = re.findall(r'File "\./([^"]+)", line (\d+)', out)
            broken.append({"what": "coq build", "files": sorted(set(f for f, _ in failed)), "detail": out[-4000:]})
        names, prop_ok, prop_out, assumptions = property_obligations(prop)
        if not prop_ok and make_ok:
            broken.append({"what": "Properties/%s.v" % prop, "detail": prop_out[-3000:]})
        hits = forbidden_scan()
        if hits:
            broken.append({"what": "forbidden keyword in the development", "detail": hits})
        checker_ready = bool(checker) and os.path.exists(os.path.join(COQ, "Checks", checker + ".vo"))

    discharged = len(names) if (prop_ok and make_ok and not hits) else 0

    # 2. harness on the real code
    summary = None
    results = []
    if os.path.exists(os.path.join(BUILD, "harness")) and not any(b["what"] == "build" for b in broken):
        budget = cfg.get("harness_timeout", {}).get(tier, 600)
        rc, out = run_guarded([os.path.join(BUILD, "harness_race" if cfg.get("race") else "harness"), "-prop", prop, "-tier", tier, "-seed", str(seed), "-out", work],
                              timeout=budget, env=goenv())
        if rc != 0:
            prog = ""
            try:
                prog = open(os.path.join(work, "progress.txt")).read()
            except Exception:
                pass
            info = {"expr": prog, "site": "harness", "detail": out[-2000:], "reason": "harness exited %d (timeout or crash) while running this input" % rc}
            violations.append(info)
        try:
            summary = json.load(open(os.path.join(work, "summary.json")))
        except Exception:
            summary = None
    # violations the harness decides itself (relations between calls, resource limits, ...)
    if summary:
        for d in summary.get("direct_violations") or []:
            violations.append(d)

    # 3. model side: evaluate the shards
    counts = {"ok": 0, "mismatch": 0, "unmodelled": 0, "stuck": 0, "property": 0, "unevaluated": 0}
    if summary and summary.get("shards"):
        if not checker_ready:
            broken.append({"what": "Checks/%s.vo missing: case shards cannot be evaluated" % cfg.get("checker")})
        else:
            shards = summary["shards"]
            procs = []
            per = cfg.get("shard_timeout", 600)
            import concurrent.futures

            def one(sh):
                return sh, run(["coqc", "-Q", COQ, "JM", sh], cwd=work, timeout=per)

            with concurrent.futures.ThreadPoolExecutor(max_workers=16) as ex:
                for sh, (rc, out) in ex.map(one, shards):
                    bad = parse_shard_output(out) if rc == 0 else None
                    if bad is None:
                        counts["unevaluated"] += 1
                        broken.append({"what": "correspondence shard %s did not evaluate" % sh, "detail": out[-1500:]})
                        continue
                    results.extend(bad)
            total = summary.get("cases", 0)
            for cid, code in results:
                key = {1: "mismatch", 2: "unmodelled", 3: "stuck", 4: "property", 5: "property", 7: "property"}.get(code, "mismatch")
                counts[key] += 1
                if code == 2:
                    continue
                info = dict(summary["index"].get(str(cid), {}))
                info["case_id"] = cid
                info["code"] = code
                info["reason"] = CODES.get(code, "?")
                violations.append(info)
            counts["ok"] = total - len(results)

    # 4. verdict
    known = load_known()
    real = []
    for v in violations:
        k = known_match(known, prop, v)
        if k:
            line = "KNOWN-FINDING: property=%s %s" % (prop, k.get("text", ""))
            if line not in known_lines:
                known_lines.append(line)
        else:
            real.append(v)
    for line in known_lines:
        print(line)

    if recorded is not None:
        now = set((str(v.get("expr")), str(v.get("doc"))) for v in real)
        was = [(str(v.get("expr")), str(v.get("doc"))) for v in recorded.get("failing_inputs", [])]
        again = [w for w in was if w in now]
        print("replay of %s (seed %s, tier %s): %d of %d recorded failing inputs fail again; %d of %d recorded broken obligations are broken again" % (
            args.replay, seed, tier, len(again), len(was),
            len([b for b in recorded.get("broken_obligations", []) if b.get("what") in [x.get("what") for x in broken]]), len(recorded.get("broken_obligations", []))))
        for w in again[:10]:
            print("  fails again: expr=%r doc=%s" % w)
    exit_code = 0
    replay_path = None
    if real or broken:
        exit_code = 1
        payload = {"property": prop, "tier": tier, "seed": seed, "repo": REPO,
                   "failing_inputs": real[:50], "broken_obligations": broken}
        h = hashlib.sha1(json.dumps(payload, sort_keys=True, default=str).encode()).hexdigest()[:12]
        replay_path = os.path.join(VERIF, "replays", "%s-%s.json" % (prop, h))
        with open(replay_path, "w") as f:
            json.dump(payload, f, indent=1, default=str)
        if real:
            first = real[0]
            print("failing input: expr=%r doc=%s observed=%s reason=%s" % (first.get("expr"), first.get("doc"), first.get("observed"), first.get("reason")))
            print("VIOLATION property=%s replay=%s" % (prop, replay_path))
        else:
            what = "; ".join(str(b.get("what")) for b in broken)
            print("no longer checks: " + what)
            print("VIOLATION property=%s replay=%s no-failing-input-found" % (prop, replay_path))

    # 5. evidence
    trusted = ["Coq 8.16.1 kernel incl. vm_compute (no native_compute)",
               "tools/gotrans (translator of the declarative tables) and Model/Tie.v",
               "harness (Go, public API) + tools/check.py: run model and code on the same inputs and compare",
               "modelled, not verified: decimal128, encoding/json, sort/slices, strings, unicode/utf8, Go integer semantics and runtime"]
    for n, a in assumptions.items():
        trusted.append("Print Assumptions %s: %s" % (n, " ".join(a.split())))
    cov = {
        "obligations": max(len(names), 1),
        "discharged": discharged,
        "checker_cmd": "cd coq && coq_makefile -f _CoqProject -o Makefile && make -j16 Properties/%s.vo Model/Tie.vo  (coqc 8.16.1, full .vo build)" % prop,
        "trusted_base": trusted,
        "theorems": names,
        "evaluations": (summary or {}).get("cases", 0),
        "distinct_nontrivial": (summary or {}).get("distinct_nontrivial", 0),
        "rule": (summary or {}).get("rule", ""),
        "samples": ((summary or {}).get("samples") or [])[:8] or [{"theorems": names}],
        "input_distribution": (summary or {}).get("distribution") or {},
        "correspondence": counts,
        "exhaustive": bool((summary or {}).get("exhaustive", False)),
        "broken_obligations": [b.get("what") for b in broken],
        "notes": notes,
        "extra": (summary or {}).get("extra") or {},
    }
    ev = {"property_id": prop, "tier": tier, "seed": seed, "level": cfg.get("level", "proof"),
          "coverage": cov, "assumptions": cfg.get("assumptions", []), "wall_s": round(time.time() - t0, 2),
          "violations": len(real) + (1 if broken and not real else 0)}
    with open(os.path.join(VERIF, "evidence", prop + ".json"), "w") as f:
        json.dump(ev, f, indent=1, default=str)
    print("%s %s: theorems=%d discharged=%d cases=%s %s wall=%.1fs" % (prop, tier, len(names), discharged, (summary or {}).get("cases"), counts, time.time() - t0))
    sys.exit(exit_code)


if __name__ == "__main__":
    main()
