# per-property configuration of tools/check.py
PROPS = {
    "C12": {"level": "proof",
            "assumptions": ["array lengths are below 2^63 (any Go slice)", "strings: theorem stated for valid UTF-8; correspondence also runs mixed-width strings"],
            "harness_timeout": {"quick": 300, "thorough": 1800}},
}
