# per-property configuration of tools/check.py
def P(level="proof", assumptions=(), quick=300, thorough=3000, **kw):
    d = {"level": level, "assumptions": list(assumptions), "harness_timeout": {"quick": quick, "thorough": thorough}}
    d.update(kw)
    return d

PROPS = {
    "C01": P(assumptions=["reference semantics (Spec/RefEval.v) is my reading of the JMESPath Community specification, validated against the compliance corpus", "multi-select on a null current node and filter-after-filter extents are treated as undetermined"]),
    "C02": P(assumptions=["lower/upper are modelled on ASCII only", "to_string of decimals is not modelled"]),
    "C03": P(assumptions=["stack exhaustion at ~10^6 nesting levels and out-of-memory are outside the model (runtime)", "array lengths are Go-representable"]),
    "C04": P(assumptions=["membership of mutated strings is decided by the model until the executable grammar lands"]),
    "C05": P(assumptions=["decimal128 is modelled at specification level (exact result, one rounding)", "operands have at most 34 significant digits"]),
    "C06": P(assumptions=["Go aliasing and the memory model are abstracted by the write-site provenance table of tools/gotrans (intra-procedural)"]),
    "C07": P(race=True, assumptions=["real schedules are exercised under the Go race detector only; the theorem is about the effect model"]),
    "C08": P(),
    "C09": P(assumptions=["wall time and allocation are measured by the harness; the theorems bound the model's fuel (lexer/parser) only"], quick=600),
    "C10": P(),
    "C11": P(assumptions=["valid UTF-8 input"]),
    "C12": P(assumptions=["array lengths are below 2^63 (any Go slice)", "strings: valid UTF-8"]),
    "C13": P(assumptions=["stdlib sort contract (sorted permutation; Stable keeps equal keys in order)"]),
    "C14": P(assumptions=["float32/float64 only for exactly representable values and whole documents", "to_string exposes the spelling of a number (excluded)"]),
    "C15": P(),
    "C16": P(assumptions=["valid UTF-8 (scalar values)"]),
    "C17": P(),
    "C18": P(),
    "C19": P(),
    "C20": P(),
}

CHECKER = {"C01": "Spec", "C10": "Spec", "C15": "Spec", "C17": "Spec", "C18": "Spec", "C19": "Spec", "C20": "Spec", "C06": "Spec",
           "C02": "Basic", "C03": "Basic", "C08": "Basic", "C11": "Basic", "C13": "Basic", "C14": "Basic", "C16": "Basic",
           "C04": "C04", "C05": "C05", "C12": "C12", "C07": None, "C09": None}
for k, v in CHECKER.items():
    PROPS[k]["checker"] = v
