package main

// Write-site provenance: every statement that writes through a slice, map,
// pointer or struct field in the non-test sources, with the provenance of the
// written object decided intra-procedurally:
//   fresh    allocated in the same function (make, composite literal, slices.Clone, nil slice grown by append)
//   percall  a field of a struct that exists only for the duration of one call (Lexer, parser, evaluator, visitor)
//   ptrparam written through a pointer parameter (listed with function and parameter name)
//   aliased  may alias a parameter, an AST node, a value returned by evaluate, or anything not recognised
// Model/Tie.v requires that no site is "aliased" and that the ptrparam sites are the known ones.

import (
	"fmt"
	"go/ast"
	"go/token"
	"sort"
	"strings"
)

var perCallStructs = map[string]bool{"Lexer": true, "parser": true, "evaluator": true, "writeVisitor": true}

// helper structs whose slice fields must be fresh at every construction site (checked separately)
var sortHelpers = map[string]bool{"sortByNumber": true, "sortByString": true}

type prov int

const (
	pFresh prov = iota
	pPerCall
	pPtrParam
	pAliased
)

func (p prov) String() string {
	return [...]string{"fresh", "percall", "ptrparam", "aliased"}[p]
}

func join(a, b prov) prov {
	if a > b {
		return a
	}
	return b
}

type funcInfo struct {
	recvName string
	recvType string
	params   map[string]bool
	ptrParam map[string]bool
	locals   map[*ast.Object]prov
}

func (fi *funcInfo) isParam(id *ast.Ident) bool {
	if id.Obj == nil {
		return false
	}
	_, isField := id.Obj.Decl.(*ast.Field)
	return isField
}

func (fi *funcInfo) provOf(e ast.Expr) prov {
	switch e := e.(type) {
	case *ast.Ident:
		if e.Name == "nil" {
			return pFresh
		}
		if e.Obj != nil {
			if p, ok := fi.locals[e.Obj]; ok {
				return p
			}
		}
		if e.Name == fi.recvName && (perCallStructs[fi.recvType] || sortHelpers[fi.recvType]) {
			return pPerCall
		}
		if fi.ptrParam[e.Name] {
			return pPtrParam
		}
		return pAliased
	case *ast.CompositeLit:
		return pFresh
	case *ast.UnaryExpr:
		if e.Op == token.AND {
			if _, ok := e.X.(*ast.CompositeLit); ok {
				return pFresh
			}
		}
		return fi.provOf(e.X)
	case *ast.CallExpr:
		fn := exprName(e.Fun)
		switch fn {
		case "make", "new", "slices.Clone", "strings.Fields", "strings.Split":
			return pFresh
		case "append":
			if len(e.Args) > 0 {
				return fi.provOf(e.Args[0]) // appending may write into the backing array of its first argument
			}
		}
		// a conversion to a named slice/struct type of a fresh value is still that value
		return pAliased
	case *ast.SelectorExpr:
		if id, ok := e.X.(*ast.Ident); ok && id.Name == fi.recvName && (perCallStructs[fi.recvType] || sortHelpers[fi.recvType]) {
			return pPerCall
		}
		p := fi.provOf(e.X)
		if p == pFresh {
			return pFresh // a field of a struct allocated here
		}
		return p
	case *ast.IndexExpr:
		return fi.provOf(e.X)
	case *ast.SliceExpr:
		return fi.provOf(e.X)
	case *ast.TypeAssertExpr:
		return fi.provOf(e.X)
	case *ast.StarExpr:
		return fi.provOf(e.X)
	case *ast.ParenExpr:
		return fi.provOf(e.X)
	case *ast.BasicLit:
		return pFresh
	}
	return pAliased
}

func analyseWrites(files map[string]*ast.File, repo string) []string {
	var out []string
	names := make([]string, 0, len(files))
	for p := range files {
		names = append(names, p)
	}
	sort.Strings(names)
	for _, path := range names {
		f := files[path]
		rel := strings.TrimPrefix(strings.TrimPrefix(path, repo), "/")
		for _, d := range f.Decls {
			fd, ok := d.(*ast.FuncDecl)
			if !ok || fd.Body == nil {
				continue
			}
			fi := &funcInfo{params: map[string]bool{}, ptrParam: map[string]bool{}, locals: map[*ast.Object]prov{}}
			if fd.Recv != nil && len(fd.Recv.List) == 1 {
				if len(fd.Recv.List[0].Names) == 1 {
					fi.recvName = fd.Recv.List[0].Names[0].Name
				}
				fi.recvType = strings.TrimPrefix(exprName(fd.Recv.List[0].Type), "*")
			}
			for _, p := range fd.Type.Params.List {
				for _, n := range p.Names {
					fi.params[n.Name] = true
					if _, isPtr := p.Type.(*ast.StarExpr); isPtr {
						fi.ptrParam[n.Name] = true
					}
				}
			}
			// locals: flow-insensitive join over all definitions (two passes to propagate through chains)
			for pass := 0; pass < 3; pass++ {
				ast.Inspect(fd.Body, func(n ast.Node) bool {
					switch n := n.(type) {
					case *ast.AssignStmt:
						if len(n.Lhs) == len(n.Rhs) {
							for i, l := range n.Lhs {
								if id, ok := l.(*ast.Ident); ok && id.Name != "_" && id.Obj != nil && !fi.isParam(id) {
									p := fi.provOf(n.Rhs[i])
									if old, seen := fi.locals[id.Obj]; seen {
										p = join(old, p)
									}
									fi.locals[id.Obj] = p
								}
							}
						} else if len(n.Rhs) == 1 {
							// multi-value: x, ok := v.(T) / r, err := f()
							for i, l := range n.Lhs {
								if id, ok := l.(*ast.Ident); ok && id.Name != "_" && id.Obj != nil && !fi.isParam(id) {
									p := pAliased
									if i == 0 {
										p = fi.provOf(n.Rhs[0])
									} else {
										p = pFresh // booleans, errors, sizes
									}
									if old, seen := fi.locals[id.Obj]; seen {
										p = join(old, p)
									}
									fi.locals[id.Obj] = p
								}
							}
						}
					case *ast.DeclStmt:
						if gd, ok := n.Decl.(*ast.GenDecl); ok && gd.Tok == token.VAR {
							for _, sp := range gd.Specs {
								vs := sp.(*ast.ValueSpec)
								for i, id := range vs.Names {
									p := pFresh // zero value: nil slice, zero struct (strings.Builder), scalar
									if i < len(vs.Values) {
										p = fi.provOf(vs.Values[i])
									}
									if id.Obj == nil {
										continue
									}
									if old, seen := fi.locals[id.Obj]; seen {
										p = join(old, p)
									}
									fi.locals[id.Obj] = p
								}
							}
						}
					case *ast.RangeStmt:
						for _, x := range []ast.Expr{n.Key, n.Value} {
							if id, ok := x.(*ast.Ident); ok && id.Name != "_" && id.Obj != nil {
								p := fi.provOf(n.X)
								if x == n.Key {
									p = pFresh // index or map key (copied scalar / string)
								}
								if old, seen := fi.locals[id.Obj]; seen {
									p = join(old, p)
								}
								fi.locals[id.Obj] = p
							}
						}
					case *ast.TypeSwitchStmt:
						// switch v := v.(type): the new v aliases the old one
						if as, ok := n.Assign.(*ast.AssignStmt); ok && len(as.Lhs) == 1 && len(as.Rhs) == 1 {
							if ta, ok := as.Rhs[0].(*ast.TypeAssertExpr); ok {
								// the symbol is re-declared in every case clause (implicit objects): record by name via the clauses
								p := fi.provOf(ta.X)
								for _, cl := range n.Body.List {
									ast.Inspect(cl, func(m ast.Node) bool {
										if id, ok := m.(*ast.Ident); ok && id.Name == as.Lhs[0].(*ast.Ident).Name && id.Obj != nil {
											if _, seen := fi.locals[id.Obj]; !seen {
												if _, isSpec := id.Obj.Decl.(*ast.AssignStmt); !isSpec {
													fi.locals[id.Obj] = p
												}
											}
										}
										return true
									})
								}
							}
						}
					}
					return true
				})
			}
			fname := fd.Name.Name
			if fi.recvType != "" {
				fname = fi.recvType + "." + fname
			}
			site := func(kind string, target ast.Expr) {
				p := fi.provOf(target)
				extra := ""
				if p == pPtrParam {
					extra = ":" + exprName(rootOf(target))
				}
				out = append(out, fmt.Sprintf("%s:%s:%s:%s=%s%s", rel, fname, kind, exprName(target), p, extra))
			}
			ast.Inspect(fd.Body, func(n ast.Node) bool {
				if cl, ok := n.(*ast.CompositeLit); ok && sortHelpers[exprName(cl.Type)] {
					for _, el := range cl.Elts {
						if kv, ok := el.(*ast.KeyValueExpr); ok {
							out = append(out, fmt.Sprintf("%s:%s:construct:%s.%s=%s", rel, fname, exprName(cl.Type), exprName(kv.Key), fi.provOf(kv.Value)))
						}
					}
				}
				return true
			})
			ast.Inspect(fd.Body, func(n ast.Node) bool {
				switch n := n.(type) {
				case *ast.AssignStmt:
					for i, l := range n.Lhs {
						switch l := l.(type) {
						case *ast.IndexExpr:
							site("store", l.X)
						case *ast.SelectorExpr:
							site("field", l.X)
						case *ast.StarExpr:
							site("deref", l.X)
						case *ast.Ident:
							// x = append(x, ...) writes x's backing array
							if i < len(n.Rhs) {
								if c, ok := n.Rhs[i].(*ast.CallExpr); ok && exprName(c.Fun) == "append" && len(c.Args) > 0 {
									site("append", c.Args[0])
								}
							}
						}
					}
				case *ast.IncDecStmt:
					switch x := n.X.(type) {
					case *ast.IndexExpr:
						site("store", x.X)
					case *ast.SelectorExpr:
						site("field", x.X)
					case *ast.StarExpr:
						site("deref", x.X)
					}
				case *ast.CallExpr:
					fn := exprName(n.Fun)
					switch fn {
					case "sort.Sort", "sort.Stable", "slices.SortFunc", "slices.SortStableFunc", "slices.Sort", "sort.Slice", "sort.SliceStable", "slices.Reverse":
						if len(n.Args) > 0 {
							site("sort", n.Args[0])
						}
					case "copy":
						if len(n.Args) > 0 {
							site("copy", n.Args[0])
						}
					case "clear":
						if len(n.Args) > 0 {
							site("clear", n.Args[0])
						}
					case "delete":
						if len(n.Args) > 0 {
							site("delete", n.Args[0])
						}
					}
				}
				return true
			})
		}
	}
	sort.Strings(out)
	return out
}

func rootOf(e ast.Expr) ast.Expr {
	for {
		switch x := e.(type) {
		case *ast.IndexExpr:
			e = x.X
		case *ast.SelectorExpr:
			e = x.X
		case *ast.StarExpr:
			e = x.X
		case *ast.SliceExpr:
			e = x.X
		case *ast.ParenExpr:
			e = x.X
		default:
			return e
		}
	}
}
