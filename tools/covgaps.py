#!/usr/bin/env python3
"""Development aid (not a check): which statements of /repo does a property's quick stream never execute?
usage: covgaps.py Cxx [file-substring ...]   (needs /var/tmp/w8/cov/Cxx.txt produced by a -cover build of the harness)"""
import re, sys
p = sys.argv[1]; subs = sys.argv[2:]
rows = []
for l in open('/var/tmp/w8/cov/%s.txt' % p):
    m = re.match(r'github.com/woodsbury/jmespath/?(\S*):(\d+)\.(\d+),(\d+)\.(\d+) (\d+) (\d+)', l)
    if not m: continue
    f, l0, c0, l1, c1, n, c = m.groups()
    if int(c) == 0 and (not subs or any(s in f for s in subs)) and 'node.go' not in f and 'visitor.go' not in f:
        rows.append((f, int(l0), int(l1)))
src = {}
for f, l0, l1 in sorted(rows):
    if f not in src: src[f] = open('/repo/' + f).read().split('\n')
    txt = ' '.join(x.strip() for x in src[f][l0-1:min(l1, l0+2)])
    print('%s:%d-%d  %s' % (f.split('/')[-1], l0, l1, txt[:110]))
