#!/usr/bin/env python3
"""Development aid (not a check): which statements of /repo does a property's quick stream never execute?
usage: covgaps.py Cxx [file-substring ...]
Builds the harness with statement coverage of the library (-cover -coverpkg=all) under _build/, runs the property's
quick stream and lists the uncovered blocks with their source text (node.go / visitor.go, which the public API
never reaches, are left out)."""
import os, re, subprocess, sys, shutil
sys.path.insert(0, os.path.dirname(os.path.abspath(__file__)))
import check
p = sys.argv[1]; subs = sys.argv[2:]
ok, msg = check.build_tools()
assert ok, msg
hdir = os.path.join(check.BUILD, "harness_src")
cov = os.path.join(check.BUILD, "cov", p)
shutil.rmtree(cov, ignore_errors=True); os.makedirs(cov + "/data"); os.makedirs(cov + "/out")
env = check.goenv()
subprocess.run(["go", "build", "-cover", "-coverpkg=all", "-tags", "verif", "-o", os.path.join(check.BUILD, "harness_cov"), "."], cwd=hdir, env=env, check=True)
subprocess.run([os.path.join(check.BUILD, "harness_cov"), "-prop", p, "-tier", "quick", "-seed", "1", "-out", cov + "/out"],
               env=dict(env, GOCOVERDIR=cov + "/data", VERIF_NO_CORPUS="1"), stdout=subprocess.DEVNULL, stderr=subprocess.DEVNULL, timeout=1800)
pk = "github.com/woodsbury/jmespath"
subprocess.run(["go", "tool", "covdata", "textfmt", "-i=" + cov + "/data", "-pkg=%s,%s/internal/lexer,%s/internal/parser,%s/internal/evaluator" % (pk, pk, pk, pk),
                "-o", cov + "/profile.txt"], cwd=hdir, env=env, stdout=subprocess.DEVNULL, stderr=subprocess.DEVNULL)
rows, total = [], 0
for l in open(cov + "/profile.txt"):
    m = re.match(r'github.com/woodsbury/jmespath/?(\S*):(\d+)\.(\d+),(\d+)\.(\d+) (\d+) (\d+)', l)
    if not m: continue
    f, l0, c0, l1, c1, n, c = m.groups()
    if 'node.go' in f or 'visitor.go' in f: continue
    total += 1
    if int(c) == 0 and (not subs or any(s in f for s in subs)):
        rows.append((f, int(l0), int(l1)))
src = {}
for f, l0, l1 in sorted(rows):
    if f not in src: src[f] = open(os.path.join(check.REPO, f)).read().split('\n')
    txt = ' '.join(x.strip() for x in src[f][l0-1:min(l1, l0+2)])
    print('%s:%d-%d  %s' % (f.split('/')[-1], l0, l1, txt[:110]))
print("%s: %d of %d blocks never executed by the quick stream" % (p, len(rows), total))
shutil.rmtree(cov + "/out", ignore_errors=True)
